//! Bounded exhaustive correspondence: every sequential history up to a given depth over a small alphabet of requests
//! (2 keys; a few acquisition variants without and with soft limit and with representative callback scripts incl. a
//! pending callback future, a late panic, an error; insert/remove/drop on every live guard; poll/cancel of every pending
//! call; one stream created/polled/dropped; lru: clock advance and expiry; count). Stateless depth-first search: every
//! node re-executes its prefix on a fresh container and is written as one case while it runs. Complements the random
//! generator: the short histories on which most seeded changes fail are covered deterministically, whatever the seed.
use crate::exec::Harness;
use crate::proto::Kind;
use std::io::Write;

pub struct EnumStats {
    pub cases: u64,
    pub requests: u64,
    pub truncated: bool,
}

struct Ctx<'a> {
    kind: Kind,
    kind_s: String,
    ops: &'a mut dyn Write,
    out: &'a mut dyn Write,
    max_cases: u64,
    stats: EnumStats,
    rng: u64,
    /// only the subtrees of the top-level actions with index = shard (mod of)
    shard: usize,
    of: usize,
    top: usize,
}

impl Ctx<'_> {
    fn shuffle(&mut self, v: &mut Vec<String>) {
        for i in (1..v.len()).rev() {
            self.rng ^= self.rng << 13;
            self.rng ^= self.rng >> 7;
            self.rng ^= self.rng << 17;
            let j = (self.rng % (i as u64 + 1)) as usize;
            v.swap(i, j);
        }
    }
}

fn is_locked_in_snapshot(reply: &str, k: u32) -> bool {
    // `<result> | [k:v:L:r ...] now=..`
    let Some(i) = reply.find("| [") else { return true };
    let body = &reply[i + 3..];
    let Some(j) = body.find(']') else { return true };
    for e in body[..j].split(' ') {
        let parts: Vec<&str> = e.split(':').collect();
        if parts.len() >= 3 && parts[0] == k.to_string() {
            return parts[2] != "U";
        }
    }
    false
}

/// the requests that may follow the executed prefix; `nlocks` = lock requests so far (for fresh handle ids)
fn actions(h: &Harness, kind: Kind, last_reply: &str, nlocks: u64, nstreams: u64, advanced: bool) -> Vec<String> {
    let mut v = Vec::new();
    let pool = kind == Kind::Pool;
    let hid = 1 + nlocks;
    let h0 = 100 * (nlocks + nstreams + 1);
    for k in 0..2u32 {
        let locked = is_locked_in_snapshot(last_reply, k);
        if !locked {
            v.push(format!("lock b {hid} {k} 0 none"));
        }
        v.push(format!("lock t {hid} {k} 0 none"));
        v.push(format!("lock a {hid} {k} 0 none"));
    }
    if !pool {
        // soft-limited calls for key 1 (so that an entry of key 0 is what gets evicted) and for key 0 (re-locking at the limit)
        for k in [1u32, 0u32] {
            let locked = is_locked_in_snapshot(last_reply, k);
            if !locked {
                v.push(format!("lock bo {hid} {k} {h0} soft 1 -"));
            }
            v.push(format!("lock ao {hid} {k} {h0} soft 1 -"));
        }
        // a limit far above any population: nothing may be evicted, sync and async
        if !is_locked_in_snapshot(last_reply, 1) {
            v.push(format!("lock b {hid} 1 {h0} soft 18446744073709551615 -"));
        }
        v.push(format!("lock ta {hid} 0 {h0} soft 18446744073709551615 -"));
        v.push(format!("lock tao {hid} 1 {h0} soft 1 stash,ok"));
        v.push(format!("lock ta {hid} 1 {h0} soft 1 keep,err"));
        v.push(format!("lock a {hid} 1 {h0} soft 1 pend,ok"));
        v.push(format!("lock to {hid} 1 {h0} soft 2 rm,lpanic"));
    }
    for g in h.guard_ids() {
        if !pool {
            v.push(format!("op {g} insert 7"));
            v.push(format!("op {g} remove"));
        }
        v.push(format!("drop {g}"));
    }
    for p in h.pending_ids() {
        v.push(format!("poll {p}"));
        v.push(format!("cancel {p}"));
    }
    if !pool {
        if h.stream_ids().is_empty() {
            if nstreams == 0 {
                v.push(format!("lockall 1 {h0}"));
            }
        } else {
            v.push("spoll 1".to_string());
            v.push("sdrop 1".to_string());
        }
    }
    if kind == Kind::Lru {
        if !advanced {
            v.push("adv 10".to_string());
        }
        v.push(format!("expire 10 {h0}"));
    }
    v.push("count".to_string());
    v
}

fn needs_reorder(kind: Kind, line: &str) -> bool {
    kind != Kind::Lru && (line.contains(" soft ") || line.starts_with("lockall") || line.starts_with("poll"))
}

fn rec(cx: &mut Ctx, prefix: &mut Vec<String>, depth: usize) -> std::io::Result<()> {
    if cx.stats.cases >= cx.max_cases {
        cx.stats.truncated = true;
        return Ok(());
    }
    // re-execute the prefix on a fresh container. A fresh hash map has a fresh iteration order, so the `reorder` lines
    // (the real order, for the requests that depend on it) are produced here, during the execution that is written out.
    // Every node is written out as a case while it executes (request flushed before it runs, reply after): if the
    // implementation hangs or aborts, the files end with the request that did it.
    let mut h = Harness::new();
    let mut nreq = 0u64;
    let run = |h: &mut Harness, cx: &mut Ctx, line: &str| -> std::io::Result<String> {
        writeln!(cx.ops, "{line}")?;
        cx.ops.flush()?;
        let r = h.exec_line(line);
        writeln!(cx.out, "{r}")?;
        cx.out.flush()?;
        Ok(r)
    };
    let init = format!("init {}", cx.kind_s);
    let mut last = run(&mut h, cx, &init)?;
    nreq += 1;
    let mut fatal = false;
    for l in prefix.iter() {
        if needs_reorder(cx.kind, l) {
            let order = h.real_keys();
            if !order.is_empty() {
                let ord = format!("reorder {}", order.iter().map(|k| k.to_string()).collect::<Vec<_>>().join(" "));
                run(&mut h, cx, &ord)?;
                nreq += 1;
            }
        }
        last = run(&mut h, cx, l)?;
        nreq += 1;
        if last.starts_with("panic") || last.starts_with("poisoned") || last.contains("[poisoned]") || last.starts_with("hang") {
            fatal = true;
        }
    }
    cx.stats.cases += 1;
    cx.stats.requests += nreq;
    let acts = if depth == 0 || fatal {
        Vec::new()
    } else {
        let nlocks = prefix.iter().filter(|l| l.starts_with("lock ")).count() as u64;
        let nstreams = prefix.iter().filter(|l| l.starts_with("lockall")).count() as u64;
        let advanced = prefix.iter().any(|l| l.starts_with("adv"));
        let mut a = actions(&h, cx.kind, &last, nlocks, nstreams, advanced);
        if depth == cx.top {
            a = a.into_iter().enumerate().filter(|(i, _)| i % cx.of == cx.shard).map(|(_, x)| x).collect();
        } else {
            cx.shuffle(&mut a);
        }
        a
    };
    drop(h);
    if acts.is_empty() {
        return Ok(());
    }
    for a in acts {
        prefix.push(a);
        rec(cx, prefix, depth - 1)?;
        prefix.pop();
        if cx.stats.cases >= cx.max_cases {
            cx.stats.truncated = true;
            break;
        }
    }
    Ok(())
}

#[allow(clippy::too_many_arguments)]
pub fn enumerate(
    kind: Kind,
    kind_s: &str,
    depth: usize,
    max_cases: u64,
    seed: u64,
    shard: usize,
    of: usize,
    ops: &mut dyn Write,
    out: &mut dyn Write,
) -> std::io::Result<EnumStats> {
    let mut cx = Ctx {
        kind,
        kind_s: kind_s.to_string(),
        ops,
        out,
        max_cases,
        stats: EnumStats { cases: 0, requests: 0, truncated: false },
        rng: seed | 1,
        shard,
        of: of.max(1),
        top: depth,
    };
    let mut prefix = Vec::new();
    rec(&mut cx, &mut prefix, depth)?;
    cx.ops.flush()?;
    cx.out.flush()?;
    Ok(cx.stats)
}
