//! The three real containers behind one object-safe interface, their guards behind `GuardObj`,
//! the mock clock and the eviction callback script.

use crate::proto::{Act, Fin, Kind, Round, Variant};
use futures::stream::{Stream, StreamExt};
use lockable::{AsyncLimit, LockPool, Lockable, LockableHashMap, LockableLruCache, SyncLimit, TimeProvider};
use std::cell::RefCell;
use std::collections::VecDeque;
use std::future::Future;
use std::num::NonZeroUsize;
use std::pin::Pin;
use std::rc::Rc;
use std::sync::atomic::{AtomicBool, AtomicU64, Ordering};
use std::sync::{Arc, OnceLock};
use std::task::{Context, Poll, Wake, Waker};
use tokio::time::{Duration, Instant};

// ---------------------------------------------------------------------------------------------
// mock clock
// ---------------------------------------------------------------------------------------------

static CLOCK_MS: AtomicU64 = AtomicU64::new(0);
static BASE: OnceLock<Instant> = OnceLock::new();

fn base() -> Instant {
    *BASE.get_or_init(Instant::now)
}

pub fn clock_ms() -> u64 {
    CLOCK_MS.load(Ordering::SeqCst)
}

pub fn clock_advance(d: u64) {
    CLOCK_MS.fetch_add(d, Ordering::SeqCst);
}

#[derive(Clone, Default)]
pub struct MockClock;

impl TimeProvider for MockClock {
    fn now(&self) -> Instant {
        base() + Duration::from_millis(clock_ms())
    }
}

/// ms since the clock's origin (not case relative)
fn instant_ms(i: Instant) -> u64 {
    i.saturating_duration_since(base()).as_millis() as u64
}

// ---------------------------------------------------------------------------------------------
// polling helpers
// ---------------------------------------------------------------------------------------------

pub struct FlagWaker {
    pub woken: AtomicBool,
}

impl Wake for FlagWaker {
    fn wake(self: Arc<Self>) {
        self.woken.store(true, Ordering::SeqCst);
    }
    fn wake_by_ref(self: &Arc<Self>) {
        self.woken.store(true, Ordering::SeqCst);
    }
}

pub fn flag_waker() -> (Arc<FlagWaker>, Waker) {
    let flag = Arc::new(FlagWaker {
        woken: AtomicBool::new(false),
    });
    let waker = Waker::from(Arc::clone(&flag));
    (flag, waker)
}

pub fn poll_once<F: Future + ?Sized>(f: Pin<&mut F>) -> Poll<F::Output> {
    let (_flag, waker) = flag_waker();
    let mut cx = Context::from_waker(&waker);
    f.poll(&mut cx)
}

// ---------------------------------------------------------------------------------------------
// guards
// ---------------------------------------------------------------------------------------------

pub trait GuardObj {
    fn key(&self) -> u32;
    fn value(&self) -> Option<u32>;
    fn value_mut_set(&mut self, v: u32) -> bool;
    fn insert(&mut self, v: u32) -> Option<u32>;
    fn try_insert(&mut self, v: u32) -> bool;
    fn remove(&mut self) -> Option<u32>;
    fn value_or_insert(&mut self, v: u32) -> u32;
    fn value_or_insert_with(&mut self, f: &mut dyn FnMut() -> u32) -> u32;
}

pub type Hm = LockableHashMap<u32, u32>;
pub type Lru = LockableLruCache<u32, u32, MockClock>;
pub type Pool = LockPool<u32>;

type HmG = <Hm as Lockable<u32, u32>>::Guard<'static>;
type HmOG = <Hm as Lockable<u32, u32>>::OwnedGuard;
type LruG = <Lru as Lockable<u32, u32>>::Guard<'static>;
type LruOG = <Lru as Lockable<u32, u32>>::OwnedGuard;
type PoolG = <Pool as Lockable<u32, ()>>::Guard<'static>;

// The guard types are projections onto a type with crate-private parameters; rustc's coherence check
// does not tell impls on such projections apart, so each one gets a local newtype.
macro_rules! impl_guard_obj {
    ($w:ident, $t:ty) => {
        pub struct $w($t);
        impl GuardObj for $w {
            fn key(&self) -> u32 {
                *self.0.key()
            }
            fn value(&self) -> Option<u32> {
                self.0.value().copied()
            }
            fn value_mut_set(&mut self, v: u32) -> bool {
                match self.0.value_mut() {
                    Some(r) => {
                        *r = v;
                        true
                    }
                    None => false,
                }
            }
            fn insert(&mut self, v: u32) -> Option<u32> {
                self.0.insert(v)
            }
            fn try_insert(&mut self, v: u32) -> bool {
                self.0.try_insert(v).is_ok()
            }
            fn remove(&mut self) -> Option<u32> {
                self.0.remove()
            }
            fn value_or_insert(&mut self, v: u32) -> u32 {
                *self.0.value_or_insert(v)
            }
            fn value_or_insert_with(&mut self, f: &mut dyn FnMut() -> u32) -> u32 {
                *self.0.value_or_insert_with(|| f())
            }
        }
    };
}

impl_guard_obj!(HmB, HmG);
impl_guard_obj!(HmO, HmOG);
impl_guard_obj!(LruB, LruG);
impl_guard_obj!(LruO, LruOG);

/// Pool guards carry no value; only `key()` is meaningful (the harness answers `bad` to any `op` on a pool)
macro_rules! impl_pool_guard_obj {
    ($w:ident, $t:ty) => {
        pub struct $w($t);
        impl GuardObj for $w {
            fn key(&self) -> u32 {
                *self.0.key()
            }
            fn value(&self) -> Option<u32> {
                None
            }
            fn value_mut_set(&mut self, _v: u32) -> bool {
                false
            }
            fn insert(&mut self, _v: u32) -> Option<u32> {
                None
            }
            fn try_insert(&mut self, _v: u32) -> bool {
                false
            }
            fn remove(&mut self) -> Option<u32> {
                None
            }
            fn value_or_insert(&mut self, v: u32) -> u32 {
                v
            }
            fn value_or_insert_with(&mut self, f: &mut dyn FnMut() -> u32) -> u32 {
                f()
            }
        }
    };
}

impl_pool_guard_obj!(PoolB, PoolG);

pub type GuardBox = Box<dyn GuardObj>;

fn boxed<T, W: GuardObj + 'static>(v: Vec<T>, w: impl Fn(T) -> W) -> Vec<GuardBox> {
    v.into_iter().map(|g| Box::new(w(g)) as GuardBox).collect()
}

pub enum LockOutcome {
    Guard(GuardBox),
    None,
    Err,
}

fn out_guard<T, W: GuardObj + 'static, E>(r: Result<T, E>, w: impl Fn(T) -> W) -> LockOutcome {
    match r {
        Ok(g) => LockOutcome::Guard(Box::new(w(g))),
        Err(_) => LockOutcome::Err,
    }
}

fn out_opt<T, W: GuardObj + 'static, E>(r: Result<Option<T>, E>, w: impl Fn(T) -> W) -> LockOutcome {
    match r {
        Ok(Some(g)) => LockOutcome::Guard(Box::new(w(g))),
        Ok(None) => LockOutcome::None,
        Err(_) => LockOutcome::Err,
    }
}

pub type LockFut = Pin<Box<dyn Future<Output = LockOutcome>>>;
pub type GuardStream = Pin<Box<dyn Stream<Item = GuardBox>>>;

fn ready_fut(o: LockOutcome) -> LockFut {
    Box::pin(std::future::ready(o))
}

// ---------------------------------------------------------------------------------------------
// eviction callback script
// ---------------------------------------------------------------------------------------------

pub const SCRIPT_PANIC: &str = "script-panic";
pub const WOULD_BLOCK_PANIC: &str = "harness-would-block";

pub struct ScriptState {
    pub rounds: VecDeque<Round>,
    /// handle id of the next guard given to the callback
    pub next_h: u64,
    pub traces: Vec<String>,
    /// guards kept alive by `stash`, moved into the harness' guard table after the call
    pub stashed: Vec<(u64, GuardBox)>,
    /// print re-entrant `keys` ascending (hashmap)
    pub sorted: bool,
    /// for blocking variants: the key being locked. Stashing its guard would block the only thread forever.
    pub block_key: Option<u32>,
    pub invocations: usize,
    /// scheduled mode: report each invocation right away as an `ev=` event of the running thread
    pub sched: bool,
}

impl ScriptState {
    pub fn new(rounds: Vec<Round>, h0: u64, sorted: bool, block_key: Option<u32>) -> Self {
        ScriptState {
            rounds: rounds.into(),
            next_h: h0,
            traces: Vec::new(),
            stashed: Vec::new(),
            sorted,
            block_key,
            invocations: 0,
            sched: false,
        }
    }
}

pub type Script = Rc<RefCell<ScriptState>>;

pub fn list_str<T: std::fmt::Display>(l: &[T]) -> String {
    if l.is_empty() {
        "-".to_string()
    } else {
        l.iter().map(|x| x.to_string()).collect::<Vec<_>>().join(",")
    }
}

pub fn pairs_str(l: &[(u64, u32)]) -> String {
    if l.is_empty() {
        "-".to_string()
    } else {
        l.iter().map(|(h, k)| format!("{h}:{k}")).collect::<Vec<_>>().join(",")
    }
}

/// start of one invocation of `on_evict`: take the next round of the script, name the guards
fn begin_round(st: &Script, guards: &[GuardBox]) -> (Round, Vec<(u64, u32)>, bool, Option<u32>) {
    let mut s = st.borrow_mut();
    s.invocations += 1;
    let round = s.rounds.pop_front().unwrap_or_default();
    let ids: Vec<(u64, u32)> = guards
        .iter()
        .enumerate()
        .map(|(i, g)| (s.next_h + i as u64, g.key()))
        .collect();
    s.next_h += guards.len() as u64;
    let (sorted, block_key) = (s.sorted, s.block_key);
    drop(s);
    if st.borrow().sched {
        // before the guards are touched: dropping them passes hook points, i.e. ends the segment
        crate::sched::push_event(format!("ev={}", pairs_str(&ids)));
    }
    (round, ids, sorted, block_key)
}

/// the work of one invocation of `on_evict`, exactly as PROTOCOL.md describes it
fn finish_round(
    st: &Script,
    round: Round,
    ids: Vec<(u64, u32)>,
    sorted: bool,
    block_key: Option<u32>,
    guards: Vec<GuardBox>,
    recount: &dyn Fn() -> (usize, Vec<u32>),
) -> Result<(), ()> {
    if round.fin == Fin::Panic {
        st.borrow_mut().traces.push(format!("ev({})", pairs_str(&ids)));
        // `guards` is still alive here: unwinding drops it
        std::panic::panic_any(SCRIPT_PANIC);
    }
    if round.fin == Fin::LatePanic {
        // work on the guards in place, then panic: what is left in `slots` is dropped by the unwinding, in order
        let mut slots: Vec<Option<GuardBox>> = guards.into_iter().map(Some).collect();
        for i in 0..slots.len() {
            match round.acts.get(i).copied().unwrap_or(Act::Rm) {
                Act::Rm => {
                    slots[i].as_mut().expect("not yet taken").remove();
                }
                Act::Keep => {}
                Act::Set(v) => {
                    slots[i].as_mut().expect("not yet taken").insert(v);
                }
                Act::Stash => {
                    if block_key == Some(slots[i].as_ref().expect("not yet taken").key()) {
                        st.borrow_mut().traces.push(format!("ev({})", pairs_str(&ids)));
                        std::panic::panic_any(WOULD_BLOCK_PANIC);
                    }
                    let g = slots[i].take().expect("not yet taken");
                    st.borrow_mut().stashed.push((ids[i].0, g));
                }
            }
        }
        st.borrow_mut().traces.push(format!("ev({})", pairs_str(&ids)));
        std::panic::panic_any(SCRIPT_PANIC);
    }
    for (i, mut g) in guards.into_iter().enumerate() {
        match round.acts.get(i).copied().unwrap_or(Act::Rm) {
            Act::Rm => {
                g.remove();
                drop(g);
            }
            Act::Keep => drop(g),
            Act::Set(v) => {
                g.insert(v);
                drop(g);
            }
            Act::Stash => {
                if block_key == Some(g.key()) {
                    // safety net, the generator avoids this
                    st.borrow_mut().traces.push(format!("ev({})", pairs_str(&ids)));
                    std::panic::panic_any(WOULD_BLOCK_PANIC);
                }
                st.borrow_mut().stashed.push((ids[i].0, g));
            }
        }
    }
    let trace = if round.recount {
        let (c, mut keys) = recount();
        if sorted {
            keys.sort_unstable();
        }
        format!("ev({};c={};k={})", pairs_str(&ids), c, list_str(&keys))
    } else {
        format!("ev({})", pairs_str(&ids))
    };
    st.borrow_mut().traces.push(trace);
    match round.fin {
        Fin::Err | Fin::PendErr => Err(()),
        _ => Ok(()),
    }
}

/// One invocation of a synchronous `on_evict`
fn run_round(st: &Script, guards: Vec<GuardBox>, recount: &dyn Fn() -> (usize, Vec<u32>)) -> Result<(), ()> {
    let (round, ids, sorted, block_key) = begin_round(st, &guards);
    finish_round(st, round, ids, sorted, block_key, guards, recount)
}

/// The future an asynchronous `on_evict` returns. For a `pend` round it owns the guards, is pending when it is first polled
/// and does the work of the round when it is polled again; dropping it before that releases the guards untouched.
pub struct EvictFut {
    ready: Option<Result<(), ()>>,
    pending: Option<PendingRound>,
}

struct PendingRound {
    st: Script,
    round: Round,
    ids: Vec<(u64, u32)>,
    sorted: bool,
    block_key: Option<u32>,
    guards: Vec<GuardBox>,
    recount: Box<dyn Fn() -> (usize, Vec<u32>)>,
    polled: bool,
}

impl std::future::Future for EvictFut {
    type Output = Result<(), ()>;
    fn poll(self: std::pin::Pin<&mut Self>, _cx: &mut std::task::Context<'_>) -> std::task::Poll<Self::Output> {
        let this = self.get_mut();
        if let Some(r) = this.ready.take() {
            return std::task::Poll::Ready(r);
        }
        let p = this.pending.as_mut().expect("EvictFut polled after completion");
        if !p.polled {
            p.polled = true;
            p.st.borrow_mut().traces.push(format!("susp({})", pairs_str(&p.ids)));
            return std::task::Poll::Pending;
        }
        let p = this.pending.take().expect("checked above");
        std::task::Poll::Ready(finish_round(&p.st, p.round, p.ids, p.sorted, p.block_key, p.guards, &*p.recount))
    }
}

fn evict_future(st: &Script, guards: Vec<GuardBox>, recount: Box<dyn Fn() -> (usize, Vec<u32>)>) -> EvictFut {
    let (round, ids, sorted, block_key) = begin_round(st, &guards);
    if matches!(round.fin, Fin::PendOk | Fin::PendErr) {
        EvictFut {
            ready: None,
            pending: Some(PendingRound { st: Rc::clone(st), round, ids, sorted, block_key, guards, recount, polled: false }),
        }
    } else {
        EvictFut { ready: Some(finish_round(st, round, ids, sorted, block_key, guards, &*recount)), pending: None }
    }
}

// ---------------------------------------------------------------------------------------------
// containers
// ---------------------------------------------------------------------------------------------

pub struct SnapEntry {
    pub key: u32,
    pub replicas: usize,
    /// `None`: locked. `Some(None)`: unlocked without value. `Some(Some((v, stamp)))`, stamp in ms since the clock's origin
    pub unlocked: Option<Option<(u32, u64)>>,
}

pub type SoftLimit = Option<(NonZeroUsize, Script)>;

pub trait Container {
    /// `None`: this container has no such variant / no limits. Sync variants are executed
    /// right here and return an already completed future.
    fn lock(&self, var: Variant, key: u32, limit: SoftLimit) -> Option<LockFut>;
    fn count(&self) -> usize;
    fn keys(&self) -> Vec<u32>;
    /// `None`: the global lock is poisoned
    fn snapshot(&self) -> Option<Vec<SnapEntry>>;
    fn expire(&self, d: Duration, owned: bool) -> Option<Vec<GuardBox>>;
    fn lock_all(&self, owned: bool) -> Option<GuardStream>;
    /// only when nothing else references the container
    fn into_entries(self: Box<Self>) -> Option<Vec<(u32, u32)>>;
}

pub struct Wrap<C> {
    arc: Arc<C>,
}

impl<C> Wrap<C> {
    /// The harness drops all guards, futures and streams before it drops the container.
    fn sref(&self) -> &'static C {
        unsafe { &*Arc::as_ptr(&self.arc) }
    }
}

/// for scheduled mode: shared by the worker threads
pub fn new_shared_container(kind: Kind) -> Arc<dyn Container + Send + Sync> {
    match kind {
        Kind::HashMap => Arc::new(Wrap { arc: Arc::new(Hm::new()) }),
        Kind::Lru => Arc::new(Wrap { arc: Arc::new(Lru::new()) }),
        Kind::Pool => Arc::new(Wrap { arc: Arc::new(Pool::new()) }),
    }
}

pub fn new_container(kind: Kind) -> Box<dyn Container> {
    match kind {
        Kind::HashMap => Box::new(Wrap { arc: Arc::new(Hm::new()) }),
        Kind::Lru => Box::new(Wrap { arc: Arc::new(Lru::new()) }),
        Kind::Pool => Box::new(Wrap { arc: Arc::new(Pool::new()) }),
    }
}

/// `$recv.$method(key, limit)` for a sync variant; `$c` is the container the callback's `recount` looks at
macro_rules! sync_call {
    ($recv:expr, $c:expr, $method:ident, $conv:ident, $key:expr, $limit:expr, $G:ty, $W:ident) => {{
        let c = $c;
        match $limit {
            None => $conv($recv.$method($key, SyncLimit::no_limit()), $W),
            Some((n, st)) => $conv(
                $recv.$method(
                    $key,
                    SyncLimit::SoftLimit {
                        max_entries: n,
                        on_evict: move |gs: Vec<$G>| {
                            run_round(&st, boxed(gs, $W), &|| {
                                (c.num_entries_or_locked(), c.keys_with_entries_or_locked())
                            })
                        },
                    },
                ),
                $W,
            ),
        }
    }};
}

/// the future of `$recv.$method(key, limit)` for an async variant, not yet polled. `$recv` is moved into the future.
macro_rules! async_call {
    ($recv:expr, $c:expr, $method:ident, $conv:ident, $key:expr, $limit:expr, $G:ty, $W:ident) => {{
        let c = $c;
        let recv = $recv;
        let fut: LockFut = match $limit {
            None => Box::pin(async move { $conv(recv.$method($key, AsyncLimit::no_limit()).await, $W) }),
            Some((n, st)) => Box::pin(async move {
                $conv(
                    recv.$method(
                        $key,
                        AsyncLimit::SoftLimit {
                            max_entries: n,
                            on_evict: move |gs: Vec<$G>| {
                                evict_future(
                                    &st,
                                    boxed(gs, $W),
                                    Box::new(move || (c.num_entries_or_locked(), c.keys_with_entries_or_locked())),
                                )
                            },
                        },
                    )
                    .await,
                    $W,
                )
            }),
        };
        fut
    }};
}

macro_rules! map_common {
    ($G:ty, $GW:ident, $OG:ty, $OGW:ident) => {
        fn lock(&self, var: Variant, key: u32, limit: SoftLimit) -> Option<LockFut> {
            let c = self.sref();
            let arc = &self.arc;
            Some(match var {
                Variant::B => ready_fut(sync_call!(c, c, blocking_lock, out_guard, key, limit, $G, $GW)),
                Variant::Bo => ready_fut(sync_call!(arc, c, blocking_lock_owned, out_guard, key, limit, $OG, $OGW)),
                Variant::T => ready_fut(sync_call!(c, c, try_lock, out_opt, key, limit, $G, $GW)),
                Variant::To => ready_fut(sync_call!(arc, c, try_lock_owned, out_opt, key, limit, $OG, $OGW)),
                Variant::A => async_call!(c, c, async_lock, out_guard, key, limit, $G, $GW),
                Variant::Ao => async_call!(Arc::clone(arc), c, async_lock_owned, out_guard, key, limit, $OG, $OGW),
                Variant::Ta => async_call!(c, c, try_lock_async, out_opt, key, limit, $G, $GW),
                Variant::Tao => {
                    async_call!(Arc::clone(arc), c, try_lock_owned_async, out_opt, key, limit, $OG, $OGW)
                }
            })
        }

        fn count(&self) -> usize {
            self.arc.num_entries_or_locked()
        }

        fn keys(&self) -> Vec<u32> {
            self.arc.keys_with_entries_or_locked()
        }

        fn lock_all(&self, owned: bool) -> Option<GuardStream> {
            if owned {
                let mut fut = Box::pin(self.arc.lock_all_entries_owned());
                match poll_once(fut.as_mut()) {
                    Poll::Ready(s) => Some(Box::pin(s.map(|g| Box::new($OGW(g)) as GuardBox))),
                    Poll::Pending => panic!("lock_all_entries_owned() was pending"),
                }
            } else {
                let mut fut = Box::pin(self.sref().lock_all_entries());
                match poll_once(fut.as_mut()) {
                    Poll::Ready(s) => Some(Box::pin(s.map(|g| Box::new($GW(g)) as GuardBox))),
                    Poll::Pending => panic!("lock_all_entries() was pending"),
                }
            }
        }
    };
}

impl Container for Wrap<Hm> {
    map_common!(HmG, HmB, HmOG, HmO);

    fn snapshot(&self) -> Option<Vec<SnapEntry>> {
        let snap = self.arc.verif_snapshot()?;
        Some(
            snap.into_iter()
                .map(|e| SnapEntry {
                    key: e.key,
                    replicas: e.num_replicas,
                    unlocked: e.unlocked_value.map(|v| v.map(|v| (v, 0))),
                })
                .collect(),
        )
    }

    fn expire(&self, _d: Duration, _owned: bool) -> Option<Vec<GuardBox>> {
        None
    }

    fn into_entries(self: Box<Self>) -> Option<Vec<(u32, u32)>> {
        let map = Arc::try_unwrap(self.arc).ok()?;
        Some(map.into_entries_unordered().collect())
    }
}

impl Container for Wrap<Lru> {
    map_common!(LruG, LruB, LruOG, LruO);

    fn snapshot(&self) -> Option<Vec<SnapEntry>> {
        let snap = self.arc.verif_snapshot()?;
        Some(
            snap.into_iter()
                .map(|e| SnapEntry {
                    key: e.key,
                    replicas: e.num_replicas,
                    unlocked: e.unlocked_value.map(|v| v.map(|(v, t)| (v, instant_ms(t)))),
                })
                .collect(),
        )
    }

    fn expire(&self, d: Duration, owned: bool) -> Option<Vec<GuardBox>> {
        Some(if owned {
            self.arc
                .lock_entries_unlocked_for_at_least_owned(d)
                .map(|g| Box::new(LruO(g)) as GuardBox)
                .collect()
        } else {
            self.sref()
                .lock_entries_unlocked_for_at_least(d)
                .map(|g| Box::new(LruB(g)) as GuardBox)
                .collect()
        })
    }

    fn into_entries(self: Box<Self>) -> Option<Vec<(u32, u32)>> {
        let map = Arc::try_unwrap(self.arc).ok()?;
        Some(map.into_entries_unordered().collect())
    }
}

impl Container for Wrap<Pool> {
    fn lock(&self, var: Variant, key: u32, limit: SoftLimit) -> Option<LockFut> {
        if limit.is_some() {
            return None;
        }
        let c = self.sref();
        match var {
            Variant::B => Some(ready_fut(LockOutcome::Guard(Box::new(PoolB(c.blocking_lock(key)))))),
            Variant::T => Some(ready_fut(match c.try_lock(key) {
                Some(g) => LockOutcome::Guard(Box::new(PoolB(g))),
                None => LockOutcome::None,
            })),
            Variant::A => Some(Box::pin(async move { LockOutcome::Guard(Box::new(PoolB(c.async_lock(key).await))) })),
            _ => None,
        }
    }

    fn count(&self) -> usize {
        self.arc.num_locked()
    }

    fn keys(&self) -> Vec<u32> {
        self.arc.locked_keys()
    }

    fn snapshot(&self) -> Option<Vec<SnapEntry>> {
        let snap = self.arc.verif_snapshot()?;
        Some(
            snap.into_iter()
                .map(|e| SnapEntry {
                    key: e.key,
                    replicas: e.num_replicas,
                    unlocked: e.unlocked_value.map(|v| v.map(|()| (0, 0))),
                })
                .collect(),
        )
    }

    fn expire(&self, _d: Duration, _owned: bool) -> Option<Vec<GuardBox>> {
        None
    }

    fn lock_all(&self, _owned: bool) -> Option<GuardStream> {
        None
    }

    fn into_entries(self: Box<Self>) -> Option<Vec<(u32, u32)>> {
        None
    }
}
